//! A `World` for histories of data commands from one client (plus a second connection used for the
//! API-level dump), optionally with virtual-clock actions. Used by C01 C02 C03 C04 C15 C16.

use super::e1::{ProbeOut, StepOut, World};
use crate::gate::StepResult;
use crate::model::{Bytes, Model};
use crate::report::fnv;
use crate::resp::{self, R};
use crate::srv::{CallErr, Client, Srv, SrvOpts};
use crate::vtime;
use serde_json::{json, Value};

#[derive(Clone, Debug)]
pub enum Act {
    Cmd(Vec<Bytes>),
    /// advance the virtual clock (sweeper passes run when due)
    Tick(u64),
    /// advance to (deadline of key) + delta ns; no-op if the key has no deadline or the target is in the past
    TickRel { key: Bytes, delta_ns: i64 },
    /// advance to the sweeper's next wake-up and let it run until it parks between its collect phase and
    /// its delete phase (SWEEP_BETWEEN); if it collected nothing the pass simply completes
    SweepOpen,
    /// let a parked sweeper finish its pass
    SweepClose,
}

pub fn cmd(parts: &[&str]) -> Act {
    Act::Cmd(parts.iter().map(|s| s.as_bytes().to_vec()).collect())
}

pub fn cmdb(parts: Vec<Bytes>) -> Act {
    Act::Cmd(parts)
}

pub fn b(s: &str) -> Bytes {
    s.as_bytes().to_vec()
}

pub struct DataSpec {
    pub prop: String,
    pub acts: Vec<Act>,
    /// read-only commands evaluated at every distinct state (may depend on the model state)
    pub probes: Box<dyn Fn(&Model) -> Vec<Vec<Bytes>>>,
    pub uses_time: bool,
    /// run every probe on its own replay of the history (where reads may lazily delete)
    pub isolated_probes: bool,
    /// extra internal invariants checked at every state (e.g. skip list structure); returns violations
    pub invariants: Option<Box<dyn Fn(&Srv, &Model) -> Vec<String>>>,
    /// cross-checks between probe replies that need no model
    pub cross: Option<Box<dyn Fn(&[(Vec<Bytes>, R)]) -> Vec<String>>>,
    pub db: usize,
    /// commands with random outcomes (SPOP ...): evaluated at every state on a throw-away replay of the
    /// history (reply judged, resulting dataset compared), never used as edges, so exploration stays deterministic
    pub destructive_probes: Option<Box<dyn Fn(&Model) -> Vec<Vec<Bytes>>>>,
    /// called at every reset (e.g. to re-arm forced skip-list levels)
    pub on_reset: Option<fn()>,
}

pub struct DataWorld {
    pub spec: DataSpec,
    srv: Option<Srv>,
    cli: Option<Client>,
    aux: Option<Client>,
    pub model: Model,
    t0_ms: u64,
    t0_ns: u64,
    restarts: usize,
    hist: Vec<usize>,
    /// signature of the last mutator applied (names the step that produced a bad state)
    last_sig: String,
}

fn describe_act(a: &Act) -> String {
    match a {
        Act::Cmd(args) => resp::show_cmd(args),
        Act::Tick(ns) => format!("tick +{}ms", ns / 1_000_000),
        Act::TickRel { key, delta_ns } => format!("tick to deadline({}){:+}ms", resp::show_bytes(key), delta_ns / 1_000_000),
        Act::SweepOpen => "sweeper: run to the window between collect and delete".into(),
        Act::SweepClose => "sweeper: finish the pass".into(),
    }
}

pub fn err_class(e: &CallErr) -> &'static str {
    match e {
        CallErr::NoReply => "no-reply",
        CallErr::Closed => "connection-closed",
        CallErr::ServerDied => "server-exited",
        CallErr::Parked => "parked",
        CallErr::Garbage(_) => "garbage-bytes",
    }
}

impl DataWorld {
    pub fn new(spec: DataSpec) -> DataWorld {
        // the clock is always virtual (frozen unless an action moves it), so TTLs never drift in real time
        vtime::enable();
        DataWorld { spec, srv: None, cli: None, aux: None, model: Model::new(), t0_ms: 0, t0_ns: 0, restarts: 0, hist: vec![], last_sig: String::new() }
    }

    /// Resolve placeholders in command templates: `@T+N` = epoch wall-clock ms + N; `@FIRST/@LAST/@MID[:key]`
    /// = id of the first/last/middle present entry of the model's stream (default key `s`), `9-9` if none
    pub fn resolve(&self, args: &[Bytes]) -> Vec<Bytes> {
        args.iter().map(|a| {
            if !a.contains(&b'@') {
                return a.clone();
            }
            let mut s = String::from_utf8_lossy(a).to_string();
            while let Some(p) = s.find("@T+") {
                let rest = &s[p + 3..];
                let digits: String = rest.chars().take_while(|c| c.is_ascii_digit()).collect();
                let n: u64 = digits.parse().unwrap_or(0);
                s = format!("{}{}{}", &s[..p], self.t0_ms + n, &rest[digits.len()..]);
            }
            for (tag, which) in [("@FIRST", 0usize), ("@LAST", 1), ("@MID", 2)] {
                if let Some(p) = s.find(tag) {
                    let key = b"s".to_vec();
                    let id = match self.model.dbs[self.spec.db].keys.get(&key) {
                        Some(crate::model::Entry { val: crate::model::Val::Stream(st), .. }) if !st.entries.is_empty() => {
                            let ids: Vec<(u64, u64)> = st.entries.keys().cloned().collect();
                            match which {
                                0 => ids[0],
                                1 => ids[ids.len() - 1],
                                _ => ids[ids.len() / 2],
                            }
                        }
                        _ => (9, 9),
                    };
                    s = format!("{}{}-{}{}", &s[..p], id.0, id.1, &s[p + tag.len()..]);
                }
            }
            s.into_bytes()
        }).collect()
    }

    fn ensure(&mut self) -> Result<(), String> {
        if self.srv.as_ref().map(|s| s.is_dead()).unwrap_or(true) {
            self.srv = None;
            self.cli = None;
            self.aux = None;
            self.srv = Some(Srv::start(&SrvOpts::default()));
            self.restarts += 1;
        }
        let srv = self.srv.as_ref().unwrap();
        if self.cli.as_ref().map(|c| !c.is_open()).unwrap_or(true) {
            self.cli = Some(srv.connect().map_err(|e| format!("connect failed: {:?}", e))?);
        }
        if self.aux.as_ref().map(|c| !c.is_open()).unwrap_or(true) {
            self.aux = Some(srv.connect().map_err(|e| format!("connect failed: {:?}", e))?);
        }
        Ok(())
    }

    /// a judged round trip on the main connection
    fn judged_call(&mut self, args: &[Bytes]) -> (bool, String, String, Option<(String, Value)>) {
        self.model.set_clock();
        let db = self.spec.db;
        let sig_args = self.model.sig_of(db, args);
        let srv = self.srv.as_ref().unwrap();
        let cli = self.cli.as_mut().unwrap();
        match srv.call(cli, args) {
            Ok(reply) => {
                let j = self.model.apply(db, args, &reply);
                let obs = format!("{} -> {}", sig_args, resp::class(&reply));
                if std::mem::take(&mut self.model.out_of_scope) {
                    // not judged and not explored further (ok = false without a deviation prunes the branch)
                    return (false, format!("{} (out of scope)", obs), resp::show(&reply), None);
                }
                if j.ok {
                    (true, obs, resp::show(&reply), None)
                } else {
                    let sig = format!("{}|{}|exp={}|act={}", self.spec.prop, sig_args, j.exp_class, resp::class(&reply));
                    let detail = json!({"command": resp::show_cmd(args), "expected": j.exp_desc, "actual": resp::show(&reply)});
                    (false, obs, resp::show(&reply), Some((sig, detail)))
                }
            }
            Err(e) => {
                // what would the model have said? (judge against a placeholder so that the state follows the spec)
                let j = self.model.apply(db, args, &R::Null);
                let cls = err_class(&e);
                let sig = format!("{}|{}|exp={}|act={}", self.spec.prop, sig_args, j.exp_class, cls);
                let mut detail = json!({"command": resp::show_cmd(args), "expected": j.exp_desc, "actual": cls});
                if e == CallErr::ServerDied {
                    detail["panic"] = json!(crate::srv::LAST_PANIC.lock().unwrap().clone());
                }
                if let CallErr::Garbage(g) = &e {
                    detail["garbage"] = json!(g);
                }
                // the connection / server is unusable now
                if let Some(c) = self.cli.as_mut() {
                    c.close();
                }
                (false, format!("{} -> {}", sig_args, cls), cls.to_string(), Some((sig, detail)))
            }
        }
    }

    /// API-level dump compared with the model through the aux connection: returns deviations
    fn dump_check(&mut self) -> Result<Vec<(String, Value)>, String> {
        let srv = self.srv.as_ref().unwrap();
        let aux = self.aux.as_mut().unwrap();
        dump_check(srv, aux, &mut self.model, &self.spec.prop, &self.last_sig)
    }

    fn fp_text(&mut self) -> String {
        self.model.set_clock();
        let mut s = self.model.canon(self.t0_ms);
        s.push_str("\n--impl--\n");
        s.push_str(&self.raw_all());
        if self.spec.uses_time {
            s.push_str(&format!("\nt={}", vtime::mono_ns() - self.t0_ns));
        }
        s
    }

    fn raw_all(&self) -> String {
        let srv = self.srv.as_ref().unwrap();
        let mut s = String::new();
        for db in 0..16 {
            let d = srv.h.storage.verif_raw_dump(db, self.t0_ms);
            if !d.is_empty() {
                s.push_str(&format!("db{}\n{}", db, d));
            }
        }
        s
    }
}

/// API-level dump (KEYS / TYPE / full read / PTTL per key, all 16 databases) compared with the model through `aux`
pub fn dump_check(srv: &Srv, aux: &mut Client, model: &mut Model, prop: &str, last_sig: &str) -> Result<Vec<(String, Value)>, String> {
    let mut devs = Vec::new();
    model.set_clock();
    for db in 0..16usize {
        let model_keys: Vec<Bytes> = {
            let now = model.now;
            model.dbs[db].keys.iter().filter(|(_, e)| e.deadline.map(|d| now <= d).unwrap_or(true)).map(|(k, _)| k.clone()).collect()
        };
        // only look at databases that hold something in the model or in the implementation
        let raw = srv.h.storage.verif_raw_dump(db, 0);
        if model_keys.is_empty() && raw.is_empty() {
            continue;
        }
        let sel = srv.call(aux, &[b"SELECT".to_vec(), db.to_string().into_bytes()]).map_err(|e| format!("dump SELECT: {:?}", e))?;
        if sel != R::ok() {
            return Err(format!("dump SELECT {} -> {}", db, resp::show(&sel)));
        }
        let mut cmds: Vec<Vec<Bytes>> = vec![vec![b"KEYS".to_vec(), b"*".to_vec()]];
        let keys_reply = srv.call(aux, &cmds[0]).map_err(|e| format!("dump KEYS: {:?}", e))?;
        let mut all: std::collections::BTreeSet<Bytes> = model_keys.iter().cloned().collect();
        if let R::Arr(v) = &keys_reply {
            for k in v {
                if let R::Bulk(bk) = k {
                    all.insert(bk.clone());
                }
            }
        }
        let j = model.apply(db, &cmds[0], &keys_reply);
        if !j.ok {
            devs.push((format!("{}|STATE after {}|KEYS db{}|exp={}|act={}", prop, last_sig, db, j.exp_class, resp::class(&keys_reply)),
                json!({"command": "KEYS *", "db": db, "expected": j.exp_desc, "actual": resp::show(&keys_reply)})));
        }
        cmds.clear();
        for k in all.iter() {
            cmds.push(vec![b"TYPE".to_vec(), k.clone()]);
            let t = model.dbs[db].keys.get(k).map(|e| e.val.type_name()).unwrap_or("none");
            let read: Vec<Bytes> = match t {
                "string" => vec![b"GET".to_vec(), k.clone()],
                "list" => vec![b"LRANGE".to_vec(), k.clone(), b"0".to_vec(), b"-1".to_vec()],
                "set" => vec![b"SMEMBERS".to_vec(), k.clone()],
                "hash" => vec![b"HGETALL".to_vec(), k.clone()],
                "zset" => vec![b"ZRANGE".to_vec(), k.clone(), b"0".to_vec(), b"-1".to_vec(), b"WITHSCORES".to_vec()],
                "stream" => vec![b"XRANGE".to_vec(), k.clone(), b"-".to_vec(), b"+".to_vec()],
                _ => vec![b"EXISTS".to_vec(), k.clone()],
            };
            cmds.push(read);
            cmds.push(vec![b"PTTL".to_vec(), k.clone()]);
        }
        for c in cmds.iter() {
            model.set_clock();
            let sig_args = model.sig_of(db, c);
            let reply = match srv.call(aux, c) {
                Ok(r) => r,
                Err(e) => {
                    devs.push((format!("{}|STATE after {}|{}|act={}", prop, last_sig, sig_args, err_class(&e)),
                        json!({"command": resp::show_cmd(c), "db": db, "actual": err_class(&e)})));
                    aux.close();
                    return Ok(devs);
                }
            };
            let j = model.apply(db, c, &reply);
            if !j.ok {
                devs.push((format!("{}|STATE after {}|{}|exp={}|act={}", prop, last_sig, sig_args, j.exp_class, resp::class(&reply)),
                    json!({"command": resp::show_cmd(c), "db": db, "expected": j.exp_desc, "actual": resp::show(&reply)})));
            }
        }
    }
    let _ = srv.call(aux, &[b"SELECT".to_vec(), b"0".to_vec()]);
    Ok(devs)
}


impl World for DataWorld {
    fn n_actions(&self) -> usize {
        self.spec.acts.len()
    }

    fn menu_here(&mut self) -> Vec<Vec<Bytes>> {
        let mut out: Vec<Vec<Bytes>> = Vec::new();
        for a in self.spec.acts.iter() {
            if let Act::Cmd(c) = a {
                out.push(self.resolve(c));
            }
        }
        self.model.set_clock();
        for p in (self.spec.probes)(&self.model) {
            out.push(self.resolve(&p));
        }
        if let Some(d) = &self.spec.destructive_probes {
            for p in d(&self.model) {
                out.push(self.resolve(&p));
            }
        }
        out.sort();
        out.dedup();
        out
    }

    fn raw_call(&mut self, args: &[Bytes]) -> Result<R, String> {
        let srv = self.srv.as_ref().ok_or("no server")?;
        let cli = self.cli.as_mut().ok_or("no client")?;
        srv.call(cli, args).map_err(|e| format!("{}: {:?}", resp::show_cmd(args), e))
    }

    fn raw_state(&mut self) -> String {
        self.raw_all()
    }

    fn epoch_ms(&self) -> u64 {
        self.t0_ms
    }

    fn take_server(&mut self) -> Option<(Srv, Client)> {
        if let Some(a) = self.aux.as_mut() {
            a.discard();
        }
        self.aux = None;
        match (self.srv.take(), self.cli.take()) {
            (Some(s), Some(c)) => Some((s, c)),
            _ => None,
        }
    }

    fn describe(&self, act: usize) -> String {
        describe_act(&self.spec.acts[act])
    }

    fn reset(&mut self) -> Result<(), String> {
        // a sweeper left parked by the previous history must finish first
        crate::gate::set_park_points(&[]);
        if !crate::gate::parked().is_empty() {
            crate::gate::release_all();
            vtime::settle().map_err(|_| "settle timeout releasing a parked sweeper".to_string())?;
        }
        self.ensure()?;
        self.hist.clear();
        {
            let srv = self.srv.as_ref().unwrap();
            let aux = self.aux.as_mut().unwrap();
            let r = srv.call(aux, &["FLUSHALL"]).map_err(|e| format!("FLUSHALL failed: {:?}", e))?;
            if r != R::ok() {
                return Err(format!("FLUSHALL -> {}", resp::show(&r)));
            }
            srv.h.storage.verif_reset_watch_trackers();
            if self.spec.db != 0 {
                let cli = self.cli.as_mut().unwrap();
                let r = srv.call(cli, &[b"SELECT".to_vec(), self.spec.db.to_string().into_bytes()]).map_err(|e| format!("SELECT failed: {:?}", e))?;
                if r != R::ok() {
                    return Err(format!("SELECT -> {}", resp::show(&r)));
                }
            }
        }
        self.model = Model::new();
        if let Some(f) = self.spec.on_reset {
            f();
        }
        if self.spec.uses_time {
            self.t0_ns = vtime::align_epoch().map_err(|_| "settle timeout while aligning epoch".to_string())?;
            self.t0_ms = vtime::wall_ms();
        } else {
            self.t0_ns = 0;
            self.t0_ms = 0;
        }
        self.model.set_clock();
        self.model.sig_ms_base = self.t0_ms;
        Ok(())
    }

    fn apply(&mut self, act: usize) -> Result<StepOut, String> {
        self.hist.push(act);
        let a = self.spec.acts[act].clone();
        match a {
            Act::Cmd(args) => {
                self.model.set_clock();
                let args = self.resolve(&args);
                self.last_sig = self.model.sig_of(self.spec.db, &args);
                let (ok, obs, _shown, dev) = self.judged_call(&args);
                Ok(StepOut { ok, dev, obs })
            }
            Act::Tick(ns) => {
                vtime::tick(ns).map_err(|_| "settle timeout during tick".to_string())?;
                self.model.set_clock();
                Ok(StepOut { ok: true, dev: None, obs: format!("tick {}ms", ns / 1_000_000) })
            }
            Act::SweepOpen => {
                crate::gate::set_park_points(&[ferrous::verif_hooks::SWEEP_BETWEEN]);
                let opened = match vtime::next_wake() {
                    Some(w) => {
                        vtime::advance_to(w).map_err(|_| "settle timeout opening the sweeper window".to_string())?;
                        !crate::gate::parked().is_empty()
                    }
                    None => false,
                };
                self.model.set_clock();
                Ok(StepOut { ok: true, dev: None, obs: format!("sweep-open:{}", opened) })
            }
            Act::SweepClose => {
                crate::gate::set_park_points(&[]);
                let was = !crate::gate::parked().is_empty();
                crate::gate::release_all();
                vtime::settle().map_err(|_| "settle timeout closing the sweeper window".to_string())?;
                self.model.set_clock();
                Ok(StepOut { ok: true, dev: None, obs: format!("sweep-close:{}", was) })
            }
            Act::TickRel { key, delta_ns } => {
                self.model.set_clock();
                let now = self.model.now;
                let dl = self.model.dbs[self.spec.db].keys.get(&key).and_then(|e| e.deadline);
                if let Some(dl) = dl {
                    let target = dl as i128 + delta_ns as i128;
                    if target > now as i128 {
                        vtime::advance_to(target as u64).map_err(|_| "settle timeout during tick".to_string())?;
                    }
                }
                self.model.set_clock();
                Ok(StepOut { ok: true, dev: None, obs: "tickrel".into() })
            }
        }
    }

    fn fingerprint(&mut self) -> Result<u128, String> {
        Ok(crate::report::fnv128(self.fp_text().as_bytes()))
    }

    fn probe(&mut self, hist: &[usize]) -> Result<ProbeOut, String> {
        let mut out = ProbeOut { devs: vec![], probes: 0, state_bad: false, outcome_hashes: vec![] };
        // internal invariants first (no commands involved)
        if let Some(inv) = &self.spec.invariants {
            for v in inv(self.srv.as_ref().unwrap(), &self.model) {
                out.devs.push((format!("{}|INVARIANT|{}", self.spec.prop, v), json!({"invariant": v})));
                out.state_bad = true;
            }
        }
        let fp_before_text = self.fp_text();
        let fp_before = crate::report::fnv128(fp_before_text.as_bytes());
        // API-level dump against the model
        if !self.spec.isolated_probes {
            let d = self.dump_check()?;
            if !d.is_empty() {
                out.state_bad = true;
            }
            out.devs.extend(d);
        }
        if out.state_bad && !self.spec.isolated_probes {
            // the state itself disagrees with the model: probing it would only echo that
            return Ok(out);
        }
        let probes = (self.spec.probes)(&self.model);
        let mut replies: Vec<(Vec<Bytes>, R)> = Vec::new();
        for (pi, p) in probes.iter().enumerate() {
            if self.spec.isolated_probes && pi > 0 {
                // fresh replay for every probe
                self.reset()?;
                for a in hist.iter() {
                    let s = self.apply(*a)?;
                    if !s.ok {
                        return Err("replay divergence before an isolated probe".into());
                    }
                }
            }
            if self.cli.as_ref().map(|c| !c.is_open()).unwrap_or(true) || self.srv.as_ref().map(|s| s.is_dead()).unwrap_or(true) {
                // an earlier probe killed the connection or the server: rebuild the state
                self.reset()?;
                for a in hist.iter() {
                    let s = self.apply(*a)?;
                    if !s.ok {
                        return Err("replay divergence while rebuilding a state after a probe broke the connection".into());
                    }
                }
            }
            // probes must not change the model: judge on a clone
            let saved = self.model.clone();
            let (ok, obs, _shown, dev) = self.judged_call(p);
            if !self.spec.isolated_probes {
                self.model = saved;
            }
            out.probes += 1;
            out.outcome_hashes.push(fnv(obs.as_bytes()));
            if let Some(d) = dev {
                out.devs.push(d);
            }
            let _ = ok;
            let _ = &mut replies;
        }
        if self.spec.isolated_probes {
            // dump check on its own replay
            self.reset()?;
            for a in hist.iter() {
                let s = self.apply(*a)?;
                if !s.ok {
                    return Err("replay divergence before the dump check".into());
                }
            }
            let d = self.dump_check()?;
            if !d.is_empty() {
                out.state_bad = true;
            }
            out.devs.extend(d);
        } else {
            let alive = self.cli.as_ref().map(|c| c.is_open()).unwrap_or(false) && !self.srv.as_ref().map(|s| s.is_dead()).unwrap_or(true);
            if alive {
                let fp_after = self.fingerprint()?;
                if fp_after != fp_before {
                    out.devs.push((format!("{}|READS-CHANGED-STATE", self.spec.prop), json!({"note": "fingerprint differs after the read-only probe batch", "before": fp_before_text, "after": self.fp_text()})));
                }
            }
        }
        if self.spec.destructive_probes.is_some() {
            let list = (self.spec.destructive_probes.as_ref().unwrap())(&self.model);
            for p in list.iter() {
                self.reset()?;
                for a in hist.iter() {
                    let s = self.apply(*a)?;
                    if !s.ok {
                        return Err("replay divergence before a destructive probe".into());
                    }
                }
                self.model.set_clock();
                self.last_sig = self.model.sig_of(self.spec.db, p);
                let (ok, obs, _shown, dev) = self.judged_call(p);
                out.probes += 1;
                out.outcome_hashes.push(fnv(obs.as_bytes()));
                if let Some(d) = dev {
                    out.devs.push(d);
                }
                if ok {
                    out.devs.extend(self.dump_check()?);
                }
            }
            // leave the world in the probed state's history again
            self.reset()?;
            for a in hist.iter() {
                let s = self.apply(*a)?;
                if !s.ok {
                    return Err("replay divergence after destructive probes".into());
                }
            }
        }
        if let Some(cross) = &self.spec.cross {
            // model-free cross-checks over a fresh batch of probe replies
            if self.cli.as_ref().map(|c| c.is_open()).unwrap_or(false) && !self.srv.as_ref().map(|s| s.is_dead()).unwrap_or(true) {
                let srv = self.srv.as_ref().unwrap();
                let cli = self.cli.as_mut().unwrap();
                let mut rs = Vec::new();
                for p in probes.iter() {
                    match srv.call(cli, p) {
                        Ok(r) => rs.push((p.clone(), r)),
                        Err(_) => {
                            cli.close();
                            break;
                        }
                    }
                }
                for v in cross(&rs) {
                    out.devs.push((format!("{}|CROSS|{}", self.spec.prop, v), json!({"cross_check": v})));
                }
            }
        }
        Ok(out)
    }

    fn wants_recycle(&self) -> bool {
        self.restarts > 150
    }
}

pub fn step_ok(r: StepResult) -> bool {
    r == StepResult::Arrived
}
