//! Explorers
