//! Explorers
pub mod dataworld;
pub mod e1;
