//! Explorers
pub mod dataworld;
pub mod e1;
pub mod multiworld;
