//! A `World` with several client connections (transactions, WATCH, pub/sub, database selection).
//! One action = one connection sends one command (or closes, or the clock ticks); afterwards the event loop
//! is stepped to quiescence and the frames received by *every* connection are compared with the
//! connection-level model.

use super::dataworld::{dump_check, err_class};
use super::e1::{ProbeOut, StepOut, World};
use crate::gate::StepResult;
use crate::model::conn::ConnModel;
use crate::model::{Bytes, Exp};
use crate::report::fnv;
use crate::resp::{self, R};
use crate::srv::{Client, Srv, SrvOpts};
use crate::vtime;
use serde_json::{json, Value};

#[derive(Clone, Debug)]
pub enum MAct {
    Cmd(usize, Vec<Bytes>),
    /// several commands of one connection delivered in one write (the server parses and executes them in one pass)
    Pipe(usize, Vec<Vec<Bytes>>),
    Close(usize),
    Tick(u64),
}

pub fn mpipe(conn: usize, cmds: &[&[&str]]) -> MAct {
    MAct::Pipe(conn, cmds.iter().map(|parts| parts.iter().map(|s| s.as_bytes().to_vec()).collect()).collect())
}

pub fn mcmd(conn: usize, parts: &[&str]) -> MAct {
    MAct::Cmd(conn, parts.iter().map(|s| s.as_bytes().to_vec()).collect())
}

pub struct MultiSpec {
    pub prop: String,
    pub nconns: usize,
    pub acts: Vec<MAct>,
    /// read-only probes sent on a connection of their own (db 0) at every state
    pub probes: Vec<Vec<Bytes>>,
    pub uses_time: bool,
    /// check the API-level dump of all databases at every state
    pub dump: bool,
    pub srv_opts: SrvOpts,
}

pub struct MultiWorld {
    pub spec: MultiSpec,
    srv: Option<Srv>,
    conns: Vec<Option<Client>>,
    aux: Option<Client>,
    pub model: ConnModel,
    t0_ms: u64,
    t0_ns: u64,
    restarts: usize,
    last_sig: String,
    /// sha of the forwarding script registered with SCRIPT LOAD at reset (substituted for `@SHA`)
    sha: Vec<u8>,
}

impl MultiWorld {
    pub fn new(spec: MultiSpec) -> MultiWorld {
        vtime::enable();
        let n = spec.nconns;
        MultiWorld { spec, srv: None, conns: (0..n).map(|_| None).collect(), aux: None, model: ConnModel::new(n), t0_ms: 0, t0_ns: 0, restarts: 0, last_sig: String::new(), sha: Vec::new() }
    }

    fn ensure_server(&mut self) -> Result<(), String> {
        if self.srv.as_ref().map(|s| s.is_dead()).unwrap_or(true) {
            self.conns.iter_mut().for_each(|c| *c = None);
            self.aux = None;
            self.srv = None;
            self.srv = Some(Srv::start(&self.spec.srv_opts));
            self.restarts += 1;
        }
        if self.aux.as_ref().map(|c| !c.is_open()).unwrap_or(true) {
            self.aux = Some(self.srv.as_ref().unwrap().connect().map_err(|e| format!("aux connect: {:?}", e))?);
        }
        Ok(())
    }

    /// step until two consecutive iterations bring no new frame on any connection; returns frames per connection
    fn settle_frames(&mut self) -> Result<Vec<Vec<R>>, String> {
        let n = self.conns.len();
        let mut out: Vec<Vec<R>> = (0..n).map(|_| Vec::new()).collect();
        let mut idle = 0;
        let mut rounds = 0;
        while idle < 2 {
            rounds += 1;
            if rounds > 200 {
                return Err("no quiescence after 200 loop iterations".into());
            }
            match self.srv.as_ref().unwrap().step() {
                StepResult::Arrived => {}
                StepResult::Died => return Err("server-exited".into()),
                StepResult::Parked => return Err("parked".into()),
            }
            let mut any = false;
            for (i, c) in self.conns.iter_mut().enumerate() {
                if let Some(c) = c {
                    c.poll();
                    loop {
                        match c.take_frame() {
                            Ok(Some(f)) => {
                                out[i].push(f);
                                any = true;
                            }
                            Ok(None) => break,
                            Err(e) => return Err(format!("garbage-bytes on connection {}: {}", i, e)),
                        }
                    }
                }
            }
            if any {
                idle = 0;
            } else {
                idle += 1;
            }
        }
        Ok(out)
    }

    /// Shards whose count of registered watchers is below the number of live watches on keys of that shard: a write
    /// to such a key may skip the modification counter and the watcher's EXEC would not notice it. (The count may
    /// be above: registrations ended by EXEC/DISCARD are left behind, which only costs time.)
    fn watch_registration_deficits(&self) -> Vec<String> {
        let srv = self.srv.as_ref().unwrap();
        let rows = (srv.h.connections)();
        let mut live: std::collections::BTreeMap<(usize, usize), (usize, Vec<u8>)> = std::collections::BTreeMap::new();
        for c in self.conns.iter().flatten() {
            if let Some(r) = rows.iter().find(|r| r.id == c.id) {
                for (db, key, _) in r.watched_detail.iter() {
                    let e = live.entry((*db, srv.h.storage.verif_shard_of(key))).or_insert((0, key.clone()));
                    e.0 += 1;
                }
            }
        }
        let mut out = Vec::new();
        for ((db, shard), (n, key)) in live {
            let (active, _) = srv.h.storage.verif_watch_state(db, &key);
            if active < n {
                out.push(format!("db{} shard {}: {} live watch(es), {} registered", db, shard, n, active));
            }
        }
        out
    }

    fn normalized_conn_state(&self) -> String {
        let srv = self.srv.as_ref().unwrap();
        let rows = (srv.h.connections)();
        let mut s = String::new();
        for (i, c) in self.conns.iter().enumerate() {
            match c {
                Some(c) => match rows.iter().find(|r| r.id == c.id) {
                    Some(r) => {
                        // hidden implementation state that decides a later EXEC: for every watched key whether its
                        // baseline is already behind the key's modification counter (two histories may only be merged
                        // if they agree on it)
                        let w: Vec<String> = r.watched_detail.iter().map(|(db, key, base)| {
                            let (_, counter) = srv.h.storage.verif_watch_state(*db, key);
                            format!("{}:{}:{}", db, resp::show_bytes(key), if counter > *base { "stale" } else { "fresh" })
                        }).collect();
                        s.push_str(&format!("c{}: {} db={} multi={} queued={} watched={:?} aborted={} deferred={}\n", i, r.state, r.db, r.in_multi, r.queued, w, r.aborted, r.deferred))
                    }
                    None => s.push_str(&format!("c{}: gone\n", i)),
                },
                None => s.push_str(&format!("c{}: closed\n", i)),
            }
        }
        for d in self.watch_registration_deficits() {
            s.push_str(&format!("watch registration deficit: {}\n", d));
        }
        // pub/sub tables with connection ids mapped to indexes
        let idx_of = |id: u64| -> String {
            for (i, c) in self.conns.iter().enumerate() {
                if let Some(c) = c {
                    if c.id == id {
                        return format!("c{}", i);
                    }
                }
            }
            format!("other{}", id)
        };
        let (ch, pt, cs) = srv.h.pubsub.verif_snapshot();
        for (name, ids) in ch {
            s.push_str(&format!("chan {:?}: {:?}\n", name, ids.iter().map(|i| idx_of(*i)).collect::<Vec<_>>()));
        }
        for (name, ids) in pt {
            s.push_str(&format!("pat {:?}: {:?}\n", name, ids.iter().map(|i| idx_of(*i)).collect::<Vec<_>>()));
        }
        for (id, c, p) in cs {
            s.push_str(&format!("sub {}: {:?} {:?}\n", idx_of(id), c, p));
        }
        s
    }

    /// internal agreement of the pub/sub tables with the model (C14) and with each other
    fn pubsub_invariant(&self) -> Vec<String> {
        let mut v = Vec::new();
        let srv = self.srv.as_ref().unwrap();
        let (ch, pt, cs) = srv.h.pubsub.verif_snapshot();
        for (i, c) in self.conns.iter().enumerate() {
            let want_ch: Vec<Bytes> = {
                let mut x = self.model.conns[i].chans.clone();
                x.sort();
                x
            };
            let want_pt: Vec<Bytes> = {
                let mut x = self.model.conns[i].pats.clone();
                x.sort();
                x
            };
            let id = match c {
                Some(c) => c.id,
                None => {
                    continue;
                }
            };
            let (got_ch, got_pt) = match cs.iter().find(|(cid, _, _)| *cid == id) {
                Some((_, a, b)) => (a.clone(), b.clone()),
                None => (vec![], vec![]),
            };
            if got_ch != want_ch || got_pt != want_pt {
                v.push("per-connection subscription table differs from the model".to_string());
            }
            for name in want_ch.iter() {
                if !ch.iter().any(|(n, ids)| n == name && ids.contains(&id)) {
                    v.push("channel table lacks a subscribed connection".to_string());
                }
            }
            for name in want_pt.iter() {
                if !pt.iter().any(|(n, ids)| n == name && ids.contains(&id)) {
                    v.push("pattern table lacks a subscribed connection".to_string());
                }
            }
        }
        let live: Vec<u64> = self.conns.iter().filter_map(|c| c.as_ref().map(|c| c.id)).collect();
        for (_, ids) in ch.iter().chain(pt.iter()) {
            for id in ids {
                if !live.contains(id) {
                    v.push("subscription table mentions a closed connection".to_string());
                }
            }
        }
        v.sort();
        v.dedup();
        v
    }
}

fn describe(a: &MAct) -> String {
    match a {
        MAct::Cmd(c, args) => format!("c{}: {}", c, resp::show_cmd(args)),
        MAct::Pipe(c, cmds) => format!("c{}: [{}] in one write", c, cmds.iter().map(|a| resp::show_cmd(a)).collect::<Vec<_>>().join(", ")),
        MAct::Close(c) => format!("c{}: close", c),
        MAct::Tick(ns) => format!("tick +{}ms", ns / 1_000_000),
    }
}

impl World for MultiWorld {
    fn n_actions(&self) -> usize {
        self.spec.acts.len()
    }
    fn describe(&self, act: usize) -> String {
        describe(&self.spec.acts[act])
    }

    fn reset(&mut self) -> Result<(), String> {
        self.ensure_server()?;
        // drop the previous history's connections
        for c in self.conns.iter_mut() {
            if let Some(cl) = c.as_mut() {
                cl.discard();
            }
            *c = None;
        }
        {
            let srv = self.srv.as_ref().unwrap();
            let _ = srv.steps(3);
            let aux = self.aux.as_mut().unwrap();
            let r = srv.call(aux, &["FLUSHALL"]).map_err(|e| format!("FLUSHALL: {:?}", e))?;
            if r != R::ok() {
                return Err(format!("FLUSHALL -> {}", resp::show(&r)));
            }
            let _ = srv.call(aux, &["SELECT", "0"]);
            if self.spec.acts.iter().any(|a| match a { MAct::Cmd(_, args) => args.iter().any(|x| x == b"@SHA"), MAct::Pipe(_, cmds) => cmds.iter().any(|args| args.iter().any(|x| x == b"@SHA")), _ => false }) {
                match srv.call(aux, &["SCRIPT", "LOAD", crate::model::conn::FORWARD_SCRIPT]) {
                    Ok(R::Bulk(sha)) => self.sha = sha,
                    other => return Err(format!("SCRIPT LOAD -> {:?}", other)),
                }
            }
            srv.h.storage.verif_reset_watch_trackers();
            // leftovers of the previous history are a finding of that history; here they would poison this one
            let (ch, pt, cs) = srv.h.pubsub.verif_snapshot();
            let (waiters, wakeq, _) = srv.h.blocking.verif_snapshot();
            if !ch.is_empty() || !pt.is_empty() || !cs.is_empty() || !waiters.is_empty() || wakeq != 0 {
                // force a fresh server
                self.srv = None;
                self.aux = None;
                self.ensure_server()?;
            }
        }
        let n = self.spec.nconns;
        for i in 0..n {
            let c = self.srv.as_ref().unwrap().connect().map_err(|e| format!("connect: {:?}", e))?;
            self.conns[i] = Some(c);
        }
        self.model = ConnModel::new(n);
        if self.spec.uses_time {
            self.t0_ns = vtime::align_epoch().map_err(|_| "settle timeout".to_string())?;
            self.t0_ms = vtime::wall_ms();
        }
        self.model.data.set_clock();
        self.model.data.sig_ms_base = self.t0_ms;
        Ok(())
    }

    fn apply(&mut self, act: usize) -> Result<StepOut, String> {
        let a = self.spec.acts[act].clone();
        self.model.data.set_clock();
        match a {
            MAct::Tick(ns) => {
                vtime::tick(ns).map_err(|_| "settle timeout".to_string())?;
                self.model.data.set_clock();
                // nothing may arrive on any connection because time passed
                let frames = self.settle_frames()?;
                if frames.iter().any(|f| !f.is_empty()) {
                    return Ok(StepOut { ok: false, dev: Some((format!("{}|tick|unsolicited-frames", self.spec.prop), json!({"frames": frames.iter().map(|f| f.iter().map(resp::show).collect::<Vec<_>>()).collect::<Vec<_>>()}))), obs: "tick".into() });
                }
                Ok(StepOut { ok: true, dev: None, obs: "tick".into() })
            }
            MAct::Close(c) => {
                if let Some(cl) = self.conns[c].as_mut() {
                    cl.close();
                }
                self.conns[c] = None;
                self.model.close(c);
                let frames = self.settle_frames()?;
                if frames.iter().any(|f| !f.is_empty()) {
                    return Ok(StepOut { ok: false, dev: Some((format!("{}|close|unsolicited-frames", self.spec.prop), json!({"frames": frames.iter().map(|f| f.iter().map(resp::show).collect::<Vec<_>>()).collect::<Vec<_>>()}))), obs: "close".into() });
                }
                Ok(StepOut { ok: true, dev: None, obs: format!("c{} closed", c) })
            }
            MAct::Pipe(c, cmds) => {
                if self.conns[c].is_none() {
                    return Ok(StepOut { ok: true, dev: None, obs: "noop".into() });
                }
                let st = &self.model.conns[c];
                let ctx = format!("c{}{}{}{}", c, if st.in_multi { "+multi" } else { "" }, if !st.watched.is_empty() { "+watch" } else { "" }, if st.db != 0 { format!("+db{}", st.db) } else { String::new() });
                let mut bytes = Vec::new();
                for args in cmds.iter() {
                    let wire: Vec<Bytes> = args.iter().map(|a| if a == b"@SHA" { self.sha.clone() } else { a.clone() }).collect();
                    bytes.extend(resp::cmd(&wire));
                }
                let shown = cmds.iter().map(|a| resp::show_cmd(a)).collect::<Vec<_>>().join(", ");
                let sig_args = format!("[{}] in one write", shown);
                self.last_sig = sig_args.clone();
                self.conns[c].as_mut().unwrap().send(&bytes);
                let frames = match self.settle_frames() {
                    Ok(f) => f,
                    Err(e) => {
                        let cls = if e.starts_with("server-exited") { "server-exited" } else if e.starts_with("garbage") { "garbage-bytes" } else { return Err(e) };
                        let sig = format!("{}|{}|{}|act={}", self.spec.prop, ctx, sig_args, cls);
                        return Ok(StepOut { ok: false, dev: Some((sig, json!({"commands": shown, "actual": e, "panic": crate::srv::LAST_PANIC.lock().unwrap().clone()}))), obs: cls.into() });
                    }
                };
                // the model executes them one after the other
                let mut own: Vec<Exp> = Vec::new();
                let mut pushes: std::collections::BTreeMap<usize, Vec<R>> = std::collections::BTreeMap::new();
                for args in cmds.iter() {
                    let off = own.len().min(frames[c].len());
                    let out = self.model.apply(c, args, &frames[c][off..]);
                    own.extend(out.own);
                    for (k, v) in out.pushes {
                        pushes.entry(k).or_default().extend(v);
                    }
                }
                let mut problems: Vec<String> = Vec::new();
                if frames[c].len() != own.len() {
                    problems.push(format!("own-frames={}-expected={}", frames[c].len(), own.len()));
                }
                for (i, e) in own.iter().enumerate() {
                    if let Some(f) = frames[c].get(i) {
                        if !e.matches(f) {
                            problems.push(format!("reply#{}:exp={}|act={}", i + 1, e.class(), resp::class(f)));
                        }
                    }
                }
                for i in 0..frames.len() {
                    if i == c {
                        continue;
                    }
                    let want = pushes.get(&i).cloned().unwrap_or_default();
                    if !Exp::AnyOrder(want.clone()).matches(&R::Arr(frames[i].clone())) {
                        problems.push(format!("c{}-received={}-expected={}", i, frames[i].len(), want.len()));
                    }
                }
                let obs = format!("{} {} -> {}", ctx, sig_args, frames[c].iter().map(resp::class).collect::<Vec<_>>().join(","));
                if problems.is_empty() {
                    Ok(StepOut { ok: true, dev: None, obs })
                } else {
                    let sig = format!("{}|{}|{}|{}", self.spec.prop, ctx, sig_args, problems.join(";"));
                    let detail = json!({"commands": format!("c{}: {}", c, shown), "expected_own": own.iter().map(|e| e.describe()).collect::<Vec<_>>(),
                        "received": frames.iter().enumerate().map(|(i, f)| (format!("c{}", i), f.iter().map(resp::show).collect::<Vec<_>>())).collect::<std::collections::BTreeMap<_, _>>()});
                    Ok(StepOut { ok: false, dev: Some((sig, detail)), obs })
                }
            }
            MAct::Cmd(c, args) => {
                if self.conns[c].is_none() {
                    // the connection was closed earlier in this history: the action is a no-op
                    return Ok(StepOut { ok: true, dev: None, obs: "noop".into() });
                }
                let st = &self.model.conns[c];
                let ctx = format!("c{}{}{}{}", c, if st.in_multi { "+multi" } else { "" }, if !st.watched.is_empty() { "+watch" } else { "" }, if st.db != 0 { format!("+db{}", st.db) } else { String::new() });
                let db = st.db;
                let sig_args = self.model.data.sig_of(db, &args);
                self.last_sig = sig_args.clone();
                let wire: Vec<Bytes> = args.iter().map(|a| if a == b"@SHA" { self.sha.clone() } else { a.clone() }).collect();
                self.conns[c].as_mut().unwrap().send(&resp::cmd(&wire));
                let frames = match self.settle_frames() {
                    Ok(f) => f,
                    Err(e) => {
                        let cls = if e.starts_with("server-exited") { "server-exited" } else if e.starts_with("garbage") { "garbage-bytes" } else { return Err(e) };
                        let sig = format!("{}|{}|{}|act={}", self.spec.prop, ctx, sig_args, cls);
                        return Ok(StepOut { ok: false, dev: Some((sig, json!({"command": resp::show_cmd(&args), "actual": e, "panic": crate::srv::LAST_PANIC.lock().unwrap().clone()}))), obs: cls.into() });
                    }
                };
                let closed = self.conns[c].as_ref().map(|x| x.closed).unwrap_or(true);
                let out = self.model.apply(c, &args, &frames[c]);
                let mut problems: Vec<String> = Vec::new();
                let mut exp_desc: Vec<String> = Vec::new();
                // own frames
                if frames[c].len() != out.own.len() {
                    problems.push(format!("own-frames={}-expected={}{}", frames[c].len(), out.own.len(), if closed { "(connection-closed)" } else { "" }));
                }
                for (i, e) in out.own.iter().enumerate() {
                    exp_desc.push(e.describe());
                    if let Some(f) = frames[c].get(i) {
                        if !e.matches(f) {
                            problems.push(format!("reply{}:exp={}|act={}", if out.own.len() > 1 { format!("#{}", i + 1) } else { String::new() }, e.class(), resp::class(f)));
                        }
                    }
                }
                // other connections
                for i in 0..frames.len() {
                    if i == c {
                        // pushes to oneself (a subscriber publishing) arrive on the same connection: not modelled in alphabets
                        continue;
                    }
                    let want = out.pushes.get(&i).cloned().unwrap_or_default();
                    let got = &frames[i];
                    if !Exp::AnyOrder(want.clone()).matches(&R::Arr(got.clone())) {
                        problems.push(format!("c{}-received={}-expected={}", i, got.len(), want.len()));
                    }
                }
                let obs = format!("{} {} -> {}", ctx, sig_args, frames[c].iter().map(resp::class).collect::<Vec<_>>().join(","));
                if problems.is_empty() {
                    Ok(StepOut { ok: true, dev: None, obs })
                } else {
                    let sig = format!("{}|{}|{}|{}", self.spec.prop, ctx, sig_args, problems.join(";"));
                    let detail = json!({"command": format!("c{}: {}", c, resp::show_cmd(&args)), "expected_own": exp_desc, "expected_pushes": out.pushes.iter().map(|(k, v)| (format!("c{}", k), v.iter().map(resp::show).collect::<Vec<_>>())).collect::<std::collections::BTreeMap<_, _>>(),
                        "received": frames.iter().enumerate().map(|(i, f)| (format!("c{}", i), f.iter().map(resp::show).collect::<Vec<_>>())).collect::<std::collections::BTreeMap<_, _>>()});
                    if closed {
                        self.conns[c] = None;
                    }
                    Ok(StepOut { ok: false, dev: Some((sig, detail)), obs })
                }
            }
        }
    }

    fn fingerprint(&mut self) -> Result<u128, String> {
        self.model.data.set_clock();
        let mut s = self.model.canon(self.t0_ms);
        s.push_str("\n--impl--\n");
        let srv = self.srv.as_ref().unwrap();
        for db in 0..16 {
            let d = srv.h.storage.verif_raw_dump(db, self.t0_ms);
            if !d.is_empty() {
                s.push_str(&format!("db{}\n{}", db, d));
            }
        }
        s.push_str(&self.normalized_conn_state());
        if self.spec.uses_time {
            s.push_str(&format!("t={}", vtime::mono_ns() - self.t0_ns));
        }
        Ok(crate::report::fnv128(s.as_bytes()))
    }

    fn probe(&mut self, _hist: &[usize]) -> Result<ProbeOut, String> {
        let mut out = ProbeOut { devs: vec![], probes: 0, state_bad: false, outcome_hashes: vec![] };
        for v in self.pubsub_invariant() {
            out.devs.push((format!("{}|INVARIANT|{}", self.spec.prop, v), json!({"invariant": v})));
            out.state_bad = true;
        }
        for d in self.watch_registration_deficits() {
            out.devs.push((format!("{}|INVARIANT|fewer watchers registered in a shard than live watches", self.spec.prop), json!({"deficit": d})));
            out.state_bad = true;
        }
        // implementation-side connection state must agree with the model
        {
            let srv = self.srv.as_ref().unwrap();
            let rows = (srv.h.connections)();
            for (i, c) in self.conns.iter().enumerate() {
                if let Some(c) = c {
                    if let Some(r) = rows.iter().find(|r| r.id == c.id) {
                        let m = &self.model.conns[i];
                        if r.in_multi != m.in_multi || r.queued != m.queue.len() {
                            out.devs.push((format!("{}|CONNSTATE|transaction state differs (impl multi={} queued={}, model multi={} queued={})", self.spec.prop, r.in_multi, r.queued, m.in_multi, m.queue.len()), json!({"conn": i})));
                            out.state_bad = true;
                        }
                        // the set of watched keys (EXEC, DISCARD and UNWATCH forget all of them); an UNWATCH between
                        // MULTI and EXEC may or may not have taken effect yet
                        if !m.unwatch_in_multi {
                            let mut imp: Vec<(usize, Vec<u8>)> = r.watched_detail.iter().map(|(db, k, _)| (*db, k.clone())).collect();
                            imp.sort();
                            let modl: Vec<(usize, Vec<u8>)> = m.watched.keys().cloned().collect();
                            if imp != modl {
                                out.devs.push((format!("{}|CONNSTATE|watched keys differ (impl {}, model {})", self.spec.prop, imp.len(), modl.len()), json!({"conn": i, "impl": imp.iter().map(|(d, k)| format!("{}:{}", d, String::from_utf8_lossy(k))).collect::<Vec<_>>()})));
                                out.state_bad = true;
                            }
                        }
                        // what decides the next EXEC: if the model knows that a watched key changed, at least one of the
                        // connection's baselines must be behind its key's modification counter (a seeded tracker that
                        // recorded only a key's first modification passed every first round and failed the second);
                        // and without any addressed watched key (and without deadlines) none may be
                        if !m.unwatch_in_multi && !r.watched_detail.is_empty() {
                            let any_stale = r.watched_detail.iter().any(|(db, key, base)| srv.h.storage.verif_watch_state(*db, key).1 > *base);
                            let deadlines = m.watched.values().any(|snap| snap.as_ref().map(|e| e.deadline.is_some()).unwrap_or(false));
                            if m.dirty && !any_stale {
                                out.devs.push((format!("{}|CONNSTATE|a watched key changed but no baseline is behind its key's counter", self.spec.prop), json!({"conn": i})));
                                out.state_bad = true;
                            }
                            if !m.dirty && !m.maybe_dirty && !deadlines && any_stale {
                                out.devs.push((format!("{}|CONNSTATE|a baseline is behind its key's counter although no watched key was addressed", self.spec.prop), json!({"conn": i})));
                                out.state_bad = true;
                            }
                        }
                        // flags no command leaves behind at quiescence: an aborted mark outside a transaction, frames
                        // held back for a client that is not blocked
                        if r.aborted && !r.in_multi {
                            out.devs.push((format!("{}|CONNSTATE|aborted flag set outside a transaction", self.spec.prop), json!({"conn": i})));
                            out.state_bad = true;
                        }
                        if r.deferred > 0 && r.state != "blocked" {
                            out.devs.push((format!("{}|CONNSTATE|{} frame(s) held back for a connection that is not blocked", self.spec.prop, r.deferred), json!({"conn": i})));
                            out.state_bad = true;
                        }
                        if r.db != m.db {
                            out.devs.push((format!("{}|CONNSTATE|selected database differs (impl {}, model {})", self.spec.prop, r.db, m.db), json!({"conn": i})));
                            out.state_bad = true;
                        }
                    }
                }
            }
        }
        if self.spec.dump {
            let srv = self.srv.as_ref().unwrap();
            let aux = self.aux.as_mut().unwrap();
            let d = dump_check(srv, aux, &mut self.model.data, &self.spec.prop, &self.last_sig)?;
            if !d.is_empty() {
                out.state_bad = true;
            }
            out.probes += 1;
            out.devs.extend(d);
        }
        for p in self.spec.probes.clone().iter() {
            let srv = self.srv.as_ref().unwrap();
            let aux = self.aux.as_mut().unwrap();
            self.model.data.set_clock();
            let sig_args = self.model.data.sig_of(0, p);
            match srv.call(aux, p) {
                Ok(r) => {
                    let saved = self.model.data.clone();
                    let j = self.model.data.apply(0, p, &r);
                    self.model.data = saved;
                    out.probes += 1;
                    out.outcome_hashes.push(fnv(format!("{}->{}", sig_args, resp::class(&r)).as_bytes()));
                    if !j.ok {
                        out.devs.push((format!("{}|PROBE {}|exp={}|act={}", self.spec.prop, sig_args, j.exp_class, resp::class(&r)), json!({"command": resp::show_cmd(p), "expected": j.exp_desc, "actual": resp::show(&r)})));
                    }
                }
                Err(e) => {
                    out.devs.push((format!("{}|PROBE {}|act={}", self.spec.prop, sig_args, err_class(&e)), json!({"command": resp::show_cmd(p)})));
                    break;
                }
            }
        }
        Ok(out)
    }

    fn wants_recycle(&self) -> bool {
        self.restarts > 100
    }
}
