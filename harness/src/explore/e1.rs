//! E1 — explicit-state breadth-first search whose transition function is the real implementation.
//! A state is the history that reaches it; it is identified by a fingerprint of (model state, the
//! implementation's complete internal dump). Parent side: deterministic two-phase BFS over worker
//! processes. Worker side: a `World` that can reset, apply an action, fingerprint and probe.

use crate::pool::{Outcome, Pool, WorkerIo};
use crate::report::{Deviation, RunReport, Samples};
use serde_json::{json, Value};
use std::collections::{BTreeMap, BTreeSet, HashSet};

pub struct StepOut {
    /// false: the step deviated (or the implementation broke) and the branch must not be extended
    pub ok: bool,
    pub dev: Option<(String, Value)>,
    /// short rendering of what was observed (for samples / outcome counting)
    pub obs: String,
}

pub struct ProbeOut {
    pub devs: Vec<(String, Value)>,
    pub probes: u64,
    /// the state itself disagrees with the model (dump mismatch): do not extend
    pub state_bad: bool,
    pub outcome_hashes: Vec<u64>,
}

pub trait World {
    fn n_actions(&self) -> usize;
    fn describe(&self, act: usize) -> String;
    /// bring implementation and model to the initial state
    fn reset(&mut self) -> Result<(), String>;
    fn apply(&mut self, act: usize) -> Result<StepOut, String>;
    fn fingerprint(&mut self) -> Result<u128, String>;
    fn probe(&mut self, hist: &[usize]) -> Result<ProbeOut, String>;
    /// whether the worker should be recycled (e.g. too many server restarts)
    fn wants_recycle(&self) -> bool {
        false
    }
    /// hand the running server and the acting client over (C09-C11 continue with the dataset a history built)
    fn take_server(&mut self) -> Option<(crate::srv::Srv, crate::srv::Client)> {
        None
    }
    /// every command of this world's alphabet (mutators and the probes of the current state), placeholders resolved
    fn menu_here(&mut self) -> Vec<Vec<Vec<u8>>> {
        Vec::new()
    }
    /// send a command on the acting connection without telling the model
    fn raw_call(&mut self, _args: &[Vec<u8>]) -> Result<crate::resp::R, String> {
        Err("not supported".into())
    }
    /// the implementation's dataset as text, times and ids relative to the history's epoch
    fn raw_state(&mut self) -> String {
        String::new()
    }
    /// wall-clock ms at the start of the current history (0 if the world does not use time)
    fn epoch_ms(&self) -> u64 {
        0
    }
}

fn hist_of(v: &Value) -> Vec<usize> {
    v.as_array().map(|a| a.iter().map(|x| x.as_u64().unwrap_or(0) as usize).collect()).unwrap_or_default()
}

/// Worker: execute one E1 task against `world`.
pub fn worker_task(world: &mut dyn World, task: &Value, io: &mut WorkerIo) -> Value {
    let phase = task["phase"].as_u64().unwrap_or(0);
    let mut out = Vec::new();
    let hists: Vec<Vec<usize>> = task["hists"].as_array().map(|a| a.iter().map(hist_of).collect()).unwrap_or_default();
    let mut errors: Vec<String> = Vec::new();
    match phase {
        1 => {
            for h in hists.iter() {
                for m in 0..world.n_actions() {
                    io.announce_case(json!({"h": h, "m": m}));
                    let mut rec = json!({"h": h, "m": m});
                    let r = (|| -> Result<(), String> {
                        world.reset()?;
                        for (i, a) in h.iter().enumerate() {
                            let s = world.apply(*a)?;
                            if !s.ok {
                                return Err(format!("replay divergence: step {} ({}) of a recorded history deviated: {:?}", i, world.describe(*a), s.dev.map(|d| d.0)));
                            }
                        }
                        let s = world.apply(m)?;
                        rec["ok"] = json!(s.ok);
                        rec["obs"] = json!(s.obs);
                        if let Some((sig, detail)) = s.dev {
                            rec["dev"] = json!({"sig": sig, "detail": detail});
                        }
                        if s.ok {
                            rec["fp"] = json!(format!("{:032x}", world.fingerprint()?));
                        }
                        Ok(())
                    })();
                    if let Err(e) = r {
                        errors.push(e);
                    }
                    out.push(rec);
                }
            }
        }
        2 => {
            for h in hists.iter() {
                io.announce_case(json!({"h": h, "probe": true}));
                let mut rec = json!({"h": h});
                let r = (|| -> Result<(), String> {
                    world.reset()?;
                    for (i, a) in h.iter().enumerate() {
                        let s = world.apply(*a)?;
                        if !s.ok {
                            return Err(format!("replay divergence in probe phase: step {} ({})", i, world.describe(*a)));
                        }
                    }
                    let p = world.probe(h)?;
                    rec["probes"] = json!(p.probes);
                    rec["state_bad"] = json!(p.state_bad);
                    rec["devs"] = json!(p.devs.iter().map(|(s, d)| json!({"sig": s, "detail": d})).collect::<Vec<_>>());
                    rec["outcomes"] = json!(p.outcome_hashes);
                    Ok(())
                })();
                if let Err(e) = r {
                    errors.push(e);
                }
                out.push(rec);
            }
        }
        4 => {
            // scripted histories: run each history completely (every step judged), then probe the end state
            for h in hists.iter() {
                io.announce_case(json!({"h": h, "scripted": true}));
                let mut rec = json!({"h": h});
                let r = (|| -> Result<(), String> {
                    world.reset()?;
                    let mut devs: Vec<Value> = Vec::new();
                    let mut obs: Vec<String> = Vec::new();
                    let mut ok = true;
                    for a in h.iter() {
                        let s = world.apply(*a)?;
                        obs.push(s.obs.clone());
                        if let Some((sig, detail)) = s.dev {
                            devs.push(json!({"sig": sig, "detail": detail}));
                        }
                        if !s.ok {
                            ok = false;
                            break;
                        }
                    }
                    let mut probes = 0;
                    if ok {
                        let p = world.probe(h)?;
                        probes = p.probes;
                        for (s, d) in p.devs {
                            devs.push(json!({"sig": s, "detail": d}));
                        }
                    }
                    rec["devs"] = json!(devs);
                    rec["obs"] = json!(obs);
                    rec["probes"] = json!(probes);
                    rec["completed"] = json!(ok);
                    Ok(())
                })();
                if let Err(e) = r {
                    errors.push(e);
                }
                out.push(rec);
            }
        }
        3 => {
            // describe the alphabet + fingerprint of the initial state
            let r = (|| -> Result<Value, String> {
                world.reset()?;
                let fp = world.fingerprint()?;
                Ok(json!({"fp": format!("{:032x}", fp), "actions": (0..world.n_actions()).map(|i| world.describe(i)).collect::<Vec<_>>()}))
            })();
            match r {
                Ok(v) => return json!({"info": v, "errors": errors}),
                Err(e) => errors.push(e),
            }
        }
        _ => errors.push(format!("unknown phase {}", phase)),
    }
    json!({"recs": out, "errors": errors})
}

pub struct E1Config {
    pub spec: String,
    pub max_depth: usize,
    /// real-time budget in seconds, checked between depth levels only
    pub budget_s: f64,
    pub chunk: usize,
    /// stop expanding when the frontier exceeds this many states (reported as a cap)
    pub max_frontier: usize,
}

pub struct E1Stats {
    pub states: u64,
    pub transitions: u64,
    pub probes: u64,
    pub executions: u64,
    pub completed_depth: usize,
    pub saturated: bool,
    pub capped: Option<String>,
    pub distinct_outcomes: usize,
    pub actions: Vec<String>,
    pub per_depth: Vec<(usize, usize)>,
    pub samples: Vec<Value>,
}

impl E1Stats {
    pub fn to_json(&self) -> Value {
        json!({
            "spec_states": self.states, "transitions": self.transitions, "probe_evaluations": self.probes,
            "executions": self.executions, "completed_depth": self.completed_depth, "saturated": self.saturated,
            "cap_hit": self.capped, "distinct_observed_outcomes": self.distinct_outcomes,
            "alphabet_size": self.actions.len(), "new_states_per_depth": self.per_depth,
        })
    }
}

fn render_hist(actions: &[String], h: &[usize]) -> Vec<String> {
    h.iter().map(|i| actions.get(*i).cloned().unwrap_or_else(|| format!("#{}", i))).collect()
}

/// Parent: run the BFS. Deviations and machinery errors go into `report`.
pub fn run(pool: &Pool, cfg: &E1Config, report: &mut RunReport) -> E1Stats {
    let start = crate::vtime::real_now_ns();
    let mut stats = E1Stats {
        states: 0, transitions: 0, probes: 0, executions: 0, completed_depth: 0, saturated: false, capped: None,
        distinct_outcomes: 0, actions: vec![], per_depth: vec![], samples: vec![],
    };
    let spec = cfg.spec.clone();
    // alphabet + initial fingerprint, computed twice in two workers: determinism guard
    let info = pool.map(vec![json!({"spec": spec, "phase": 3}), json!({"spec": spec, "phase": 3})], 0);
    let mut infos = Vec::new();
    for o in info {
        match o {
            Outcome::Done(v) => {
                for e in v["errors"].as_array().cloned().unwrap_or_default() {
                    report.machinery_errors.push(format!("{}: {}", spec, e.as_str().unwrap_or("?")));
                }
                infos.push(v["info"].clone());
            }
            Outcome::Died { status, .. } => report.machinery_errors.push(format!("{}: worker died describing the alphabet: {}", spec, status)),
        }
    }
    if infos.len() < 2 || infos[0] != infos[1] || infos[0].is_null() {
        report.machinery_errors.push(format!("{}: initial state is not reproducible across workers: {:?}", spec, infos));
        return stats;
    }
    stats.actions = infos[0]["actions"].as_array().map(|a| a.iter().map(|s| s.as_str().unwrap_or("").to_string()).collect()).unwrap_or_default();
    let mut seen: HashSet<String> = HashSet::new();
    seen.insert(infos[0]["fp"].as_str().unwrap_or("").to_string());
    let mut frontier: Vec<Vec<usize>> = vec![vec![]];
    let mut outcomes: BTreeSet<u64> = BTreeSet::new();
    let mut obs_set: BTreeSet<String> = BTreeSet::new();
    let mut samples = Samples::new(6);
    let mut first_phase2 = true;
    for depth in 1..=cfg.max_depth {
        if frontier.is_empty() {
            stats.saturated = true;
            break;
        }
        let elapsed = (crate::vtime::real_now_ns() - start) as f64 / 1e9;
        if elapsed > cfg.budget_s {
            stats.capped = Some(format!("time budget {:.0}s reached before depth {}", cfg.budget_s, depth));
            break;
        }
        if frontier.len() > cfg.max_frontier {
            stats.capped = Some(format!("frontier of {} states exceeds cap {} before depth {}", frontier.len(), cfg.max_frontier, depth));
            break;
        }
        // ---- phase 1
        let mut tasks: Vec<Value> = frontier.chunks(cfg.chunk.max(1)).map(|c| json!({"spec": spec, "phase": 1, "hists": c})).collect();
        if depth == 1 {
            // determinism guard: the first level is computed twice
            tasks.push(tasks[0].clone());
        }
        let ntasks = tasks.len();
        let res = pool.map(tasks, 400);
        let mut recs: Vec<Value> = Vec::new();
        for (ti, o) in res.into_iter().enumerate() {
            match o {
                Outcome::Done(v) => {
                    for e in v["errors"].as_array().cloned().unwrap_or_default() {
                        report.machinery_errors.push(format!("{}: {}", spec, e.as_str().unwrap_or("?")));
                    }
                    let r = v["recs"].as_array().cloned().unwrap_or_default();
                    if depth == 1 && ti == ntasks - 1 {
                        // compare with task 0's records
                        let proj = |v: &Value| json!({"h": v["h"], "m": v["m"], "ok": v["ok"], "fp": v["fp"], "sig": v["dev"]["sig"], "obs": v["obs"]});
                        let first: Vec<Value> = recs.iter().take(r.len()).map(proj).collect();
                        let second: Vec<Value> = r.iter().map(proj).collect();
                        if first != second {
                            report.machinery_errors.push(format!("{}: depth-1 level is not reproducible (nondeterminism not owned)", spec));
                        }
                    } else {
                        recs.extend(r);
                    }
                }
                Outcome::Died { status, case } => {
                    report.machinery_errors.push(format!("{}: worker died in phase 1: {} at {:?}", spec, status, case));
                }
            }
        }
        let mut new_reps: BTreeMap<String, Vec<usize>> = BTreeMap::new();
        for r in recs.iter() {
            stats.transitions += 1;
            stats.executions += 1;
            let mut h = hist_of(&r["h"]);
            h.push(r["m"].as_u64().unwrap_or(0) as usize);
            if let Some(o) = r["obs"].as_str() {
                if obs_set.len() < 100_000 {
                    obs_set.insert(o.to_string());
                }
            }
            if let Some(d) = r.get("dev") {
                report.deviations.push(Deviation {
                    property: report.property.clone(),
                    sig: d["sig"].as_str().unwrap_or("").to_string(),
                    replay: json!({"kind": "e1", "spec": spec, "history": h, "actions": render_hist(&stats.actions, &h), "detail": d["detail"]}),
                });
            }
            if r["ok"].as_bool() == Some(true) {
                if let Some(fp) = r["fp"].as_str() {
                    if !seen.contains(fp) {
                        match new_reps.get(fp) {
                            Some(old) if *old <= h => {}
                            _ => {
                                new_reps.insert(fp.to_string(), h);
                            }
                        }
                    }
                }
            }
        }
        for fp in new_reps.keys() {
            seen.insert(fp.clone());
        }
        let mut reps: Vec<Vec<usize>> = new_reps.values().cloned().collect();
        reps.sort();
        stats.per_depth.push((depth, reps.len()));
        // ---- phase 2 (also covers the initial state, once)
        let mut p2: Vec<Vec<usize>> = reps.clone();
        if first_phase2 {
            p2.insert(0, vec![]);
            first_phase2 = false;
        }
        let tasks: Vec<Value> = p2.chunks((cfg.chunk / 2).max(1)).map(|c| json!({"spec": spec, "phase": 2, "hists": c})).collect();
        let res = pool.map(tasks, 400);
        let mut bad: BTreeSet<Vec<usize>> = BTreeSet::new();
        for o in res {
            match o {
                Outcome::Done(v) => {
                    for e in v["errors"].as_array().cloned().unwrap_or_default() {
                        report.machinery_errors.push(format!("{}: {}", spec, e.as_str().unwrap_or("?")));
                    }
                    for r in v["recs"].as_array().cloned().unwrap_or_default() {
                        let h = hist_of(&r["h"]);
                        stats.executions += 1;
                        stats.probes += r["probes"].as_u64().unwrap_or(0);
                        for oh in r["outcomes"].as_array().cloned().unwrap_or_default() {
                            if let Some(x) = oh.as_u64() {
                                outcomes.insert(x);
                            }
                        }
                        for d in r["devs"].as_array().cloned().unwrap_or_default() {
                            report.deviations.push(Deviation {
                                property: report.property.clone(),
                                sig: d["sig"].as_str().unwrap_or("").to_string(),
                                replay: json!({"kind": "e1", "spec": spec, "history": h, "actions": render_hist(&stats.actions, &h), "detail": d["detail"]}),
                            });
                        }
                        if r["state_bad"].as_bool() == Some(true) {
                            bad.insert(h.clone());
                        }
                        samples.push(json!({"history": render_hist(&stats.actions, &h), "probes": r["probes"]}));
                    }
                }
                Outcome::Died { status, case } => {
                    report.machinery_errors.push(format!("{}: worker died in phase 2: {} at {:?}", spec, status, case));
                }
            }
        }
        frontier = reps.into_iter().filter(|h| !bad.contains(h)).collect();
        stats.completed_depth = depth;
        if frontier.is_empty() {
            stats.saturated = true;
        }
    }
    stats.states = seen.len() as u64;
    stats.transitions += stats.probes;
    stats.distinct_outcomes = outcomes.len() + obs_set.len();
    stats.samples = samples.items;
    stats
}

/// Parent: run a fixed list of scripted histories (E2-style scenario enumeration on an E1 world).
/// Returns (executions, probe evaluations, distinct observation sequences, samples).
pub fn run_scripted(pool: &Pool, spec: &str, hists: Vec<Vec<usize>>, report: &mut RunReport) -> (u64, u64, usize, Vec<Value>, Vec<Vec<String>>) {
    let info = pool.map(vec![json!({"spec": spec, "phase": 3})], 0);
    let actions: Vec<String> = match &info[0] {
        Outcome::Done(v) => v["info"]["actions"].as_array().map(|a| a.iter().map(|s| s.as_str().unwrap_or("").to_string()).collect()).unwrap_or_default(),
        Outcome::Died { status, .. } => {
            report.machinery_errors.push(format!("{}: worker died describing the alphabet: {}", spec, status));
            vec![]
        }
    };
    let tasks: Vec<Value> = hists.chunks(8).map(|c| json!({"spec": spec, "phase": 4, "hists": c})).collect();
    let res = pool.map(tasks, 400);
    let mut execs = 0u64;
    let mut probes = 0u64;
    let mut obs_set: BTreeSet<String> = BTreeSet::new();
    let mut samples = Vec::new();
    let mut all_obs: Vec<Vec<String>> = Vec::new();
    for o in res {
        match o {
            Outcome::Done(v) => {
                for e in v["errors"].as_array().cloned().unwrap_or_default() {
                    report.machinery_errors.push(format!("{}: {}", spec, e.as_str().unwrap_or("?")));
                }
                for r in v["recs"].as_array().cloned().unwrap_or_default() {
                    let h = hist_of(&r["h"]);
                    execs += 1;
                    probes += r["probes"].as_u64().unwrap_or(0);
                    let obs: Vec<String> = r["obs"].as_array().map(|a| a.iter().map(|s| s.as_str().unwrap_or("").to_string()).collect()).unwrap_or_default();
                    obs_set.insert(obs.join(" ; "));
                    all_obs.push(obs.clone());
                    for d in r["devs"].as_array().cloned().unwrap_or_default() {
                        report.deviations.push(Deviation {
                            property: report.property.clone(),
                            sig: d["sig"].as_str().unwrap_or("").to_string(),
                            replay: json!({"kind": "e1", "spec": spec, "history": h, "actions": render_hist(&actions, &h), "detail": d["detail"]}),
                        });
                    }
                    if samples.len() < 4 {
                        samples.push(json!({"schedule": render_hist(&actions, &h), "observed": obs}));
                    }
                }
            }
            Outcome::Died { status, case } => report.machinery_errors.push(format!("{}: worker died in a scripted history: {} at {:?}", spec, status, case)),
        }
    }
    (execs, probes, obs_set.len(), samples, all_obs)
}
