#!/bin/bash
# selftest.sh <patch> <PROP> [tier]: apply a property-breaking patch to /repo, run the check, restore /repo.
# Prints DETECTED / MISSED. Development tool, not a MANIFEST command.
patch="$1"; prop="$2"; tier="${3:-quick}"
cd /verif || exit 2
if ! git -C /repo diff --quiet HEAD; then echo "repo working tree not clean"; exit 2; fi
git -C /repo apply "$(realpath "$patch")" || { echo "patch does not apply: $patch"; exit 2; }
out=$(timeout 1500 ./vcheck "$prop" --tier "$tier" 2>&1); code=$?; pkill -9 -f "vcheck-bin --worker" 2>/dev/null
git -C /repo reset -q --hard HEAD
nviol=$(echo "$out" | grep -c "^VIOLATION")
if [ $code -eq 1 ] && [ $nviol -gt 0 ]; then echo "DETECTED $(basename $patch) by $prop ($nviol violation signature(s)): $(echo "$out" | grep 'signature:' | head -2 | tr '\n' ' ')"; 
elif [ $code -eq 2 ]; then echo "MACHINERY($code) $(basename $patch) by $prop: $(echo "$out" | grep -E 'MACHINERY|error' | head -3)";
else echo "MISSED $(basename $patch) by $prop (exit $code)"; fi
