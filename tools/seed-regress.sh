#!/bin/bash
# re-run every kept seed against the check(s) that detect it
cd /verif
out=/root/sweep/regress.txt; : > $out
for d in seeded/*/; do
  id=$(basename $d)
  prop=$(python3 -c "import json;print(json.load(open('$d/meta.json'))['property'])" 2>/dev/null)
  [ -z "$prop" ] && { echo "$id: no meta" >> $out; continue; }
  # which check detected it: take those named in checks_run with DETECTED, prefer the property's own
  checks=$(python3 - "$d" <<'PY'
import json,sys,re
m=json.load(open(sys.argv[1]+'/meta.json'))
det=[]
for k,v in m.get('checks_run',{}).items():
    if 'DETECTED' in v:
        for c in re.findall(r'C\d\d',k.split('(')[0]): 
            if c not in det: det.append(c)
print(' '.join(det[:1]) if det else m['property'])
PY
)
  for c in $checks; do
    r=$(tools/seedrun.sh $id $c quick 2>&1 | tail -1 | cut -c1-160)
    echo "$id $c :: $r" >> $out
  done
done
echo DONE >> $out
