#!/usr/bin/env python3
"""Maintain /verif/known_findings.json: `kf.py add <json-file-with-list-of-findings>` merges by id; `kf.py fixed "<line>"` appends."""
import json, sys, os
P = '/verif/known_findings.json'
def load():
    if os.path.exists(P):
        return json.load(open(P))
    return {"note": "Genuine defects of iGentAI/ferrous found by the checks. 'findings' are recorded (not repaired) and matched by signature patterns ('*' = any run of characters, everything else literal); a check prints KNOWN-FINDING for them and still reports any other deviation. 'fixed' entries suppress nothing.", "findings": [], "fixed": []}
def save(k):
    json.dump(k, open(P, 'w'), indent=1, ensure_ascii=False)
    open(P, 'a').write('\n')
if sys.argv[1] == 'add':
    k = load()
    new = json.load(open(sys.argv[2]))
    ids = {f['id']: i for i, f in enumerate(k['findings'])}
    for f in new:
        if f['id'] in ids:
            k['findings'][ids[f['id']]] = f
        else:
            k['findings'].append(f)
    save(k)
elif sys.argv[1] == 'fixed':
    k = load()
    if sys.argv[2] not in k['fixed']:
        k['fixed'].append(sys.argv[2])
    save(k)
