#!/bin/bash
# seedcheck.sh <Cxx> <demo command, run from the worktree root> : confirm a seeded change in its scratch worktree
# (/tmp/seed_<Cxx>): test suite passes with it, demo fails with it and passes without it; then copy it to
# /verif/seeded/<Cxx>/. Development tool, not a MANIFEST command.
id="$1"; shift; demo="$*"
wt=${SEED_WT:-/tmp/seed_$id}
cd "$wt" || exit 2
export CARGO_NET_OFFLINE=true
[ -f seed/patch.diff ] || { echo "no seed/patch.diff"; exit 2; }
# state: patch applied?
if git apply -R --check seed/patch.diff 2>/dev/null; then echo "patch is applied"; else git apply seed/patch.diff || { echo "cannot apply patch"; exit 2; }; fi
echo "== build with the change"; cargo build --offline 2>&1 | tail -1
echo "== demo with the change"; timeout 300 bash -c "$demo" > /tmp/seed_${id}_with.log 2>&1; with=$?; tail -3 /tmp/seed_${id}_with.log; echo "exit=$with"
echo "== test suite with the change"; cargo test --workspace --no-fail-fast --offline 2>&1 | grep -E "^test result|FAILED" > /tmp/seed_${id}_tests.log; cat /tmp/seed_${id}_tests.log
passed=$(grep -o "[0-9]* passed" /tmp/seed_${id}_tests.log | awk '{s+=$1} END {print s}'); failed=$(grep -o "[0-9]* failed" /tmp/seed_${id}_tests.log | awk '{s+=$1} END {print s}')
git apply -R seed/patch.diff || { echo "cannot revert"; exit 2; }
echo "== build without the change"; cargo build --offline 2>&1 | tail -1
echo "== demo without the change"; timeout 300 bash -c "$demo" > /tmp/seed_${id}_without.log 2>&1; without=$?; tail -3 /tmp/seed_${id}_without.log; echo "exit=$without"
git apply seed/patch.diff
echo "SUMMARY id=$id tests_passed=$passed tests_failed=$failed demo_with=$with demo_without=$without"
if [ "$with" != "0" ] && [ "$without" = "0" ] && [ "$failed" = "0" ] && [ "$passed" = "163" ]; then
  mkdir -p /verif/seeded/${SEED_NAME:-$id} && cp seed/* /verif/seeded/${SEED_NAME:-$id}/ && echo "CONFIRMED: copied to /verif/seeded/${SEED_NAME:-$id}"
else echo "NOT CONFIRMED"; fi
