#!/usr/bin/env python3
"""mkmeta.py <seed id> <PROP> <round> <worktree> <base commit> <breaks> <needs> [<check>=<result> ...] : write /verif/seeded/<id>/meta.json"""
import json, sys
id, prop, rnd, wt, base, breaks, needs = sys.argv[1:8]
checks = {}
for kv in sys.argv[8:]:
    k, v = kv.split('=', 1)
    checks[k] = v
m = {"property": prop, "round": int(rnd), "breaks": breaks, "needs_to_manifest": needs, "checks_run": checks,
     "source": "fresh sub-agent given only the property text, a scratch worktree (%s, since removed) and one line each on the earlier seeds of this property to avoid" % wt,
     "confirmed_by": "SEED_WT=%s SEED_NAME=%s tools/seedcheck.sh %s <demo>: 163/163 tests pass with the change, the demonstration fails with it and passes without it" % (wt, id, prop),
     "base_commit": base}
json.dump(m, open('/verif/seeded/%s/meta.json' % id, 'w'), indent=1)
