#!/usr/bin/env python3
"""mkmutant.py <name> <file> <old> <new>: make /verif/mutants/<name>.patch by replacing one occurrence in /repo/<file> (working tree is restored)."""
import sys, subprocess
name, f, old, new = sys.argv[1:5]
p = '/repo/' + f
s = open(p).read()
assert s.count(old) == 1, ('occurrences', s.count(old))
open(p, 'w').write(s.replace(old, new))
d = subprocess.run(['git', '-C', '/repo', 'diff'], capture_output=True, text=True).stdout
open('/verif/mutants/%s.patch' % name, 'w').write(d)
subprocess.run(['git', '-C', '/repo', 'checkout', '--', '.'])
print(name, len(d.splitlines()), 'lines')
