#!/usr/bin/env python3
"""Regenerate /verif/MANIFEST.json from the table below (claimed checks) and properties.jsonl."""
import json, subprocess
ids = [json.loads(l)['id'] for l in open('/verif/properties.jsonl')]
hook_commits = subprocess.run(['git', '-C', '/repo', 'log', '--format=%h %s'], capture_output=True, text=True).stdout.splitlines()
hook_commits = [l.split()[0] for l in hook_commits if ' verif-hooks:' in l]
hook_commits.reverse()

MC = "model_checking"
CHECKS = {
 "C01": dict(cat=MC, engine="E1", technique="explicit-state BFS over command histories of the real server (gated event loop, frozen virtual clock) against a reference model + exhaustive glob-matcher comparison",
   text="Every history of string/key-space commands up to the completed depth over a colliding alphabet (same-shard keys, every existing value type, boundary integers, binary key) is executed on the real server; each reply, the API-level dump and the internal dump are compared with the reference model at every distinct state; all GETRANGE index pairs relative to the length are probed at every state. The key glob matcher is compared with a port of Redis's stringmatchlen on all patterns up to length 4/5 over a 9-symbol alphabet.",
   note="Trusts the reference model in /verif/SEMANTICS.md (don't-cares are listed there), the checker's own RESP reader, and that histories deeper than the completed depth / values outside the alphabet behave alike."),
 "C03": dict(cat=MC, engine="E1", technique="explicit-state BFS over list/set/hash command histories of the real server against a reference model; random-outcome commands judged on throw-away replays",
   text="Per family (lists, two sets, hashes) and mixed across types on one key: all histories up to the completed depth; at every distinct state all index forms (relative to the length), all multi-key set-algebra selections of existing/missing/wrong-type keys and all SRANDMEMBER/SPOP count forms are probed and compared with the model; emptiness-deletes-the-key and failure atomicity are checked through the dump comparison.",
   note="Same trusted base as C01. SPOP with a random outcome is never an edge (kept deterministic); its reply and resulting dataset are judged at every state on a throw-away replay."),
 "C04": dict(cat=MC, engine="E1+E4", technique="explicit-state search to closure over the real SkipList's reachable internal states with forced tower heights + BFS over sorted-set command histories with model, cross-checks and structural invariant hook",
   text="(a) the real SkipList is driven through every insert (3-4 members x 7 colliding scores incl. -0/0, +-inf, 1 and 1+eps x forced heights 0..2) and remove until no new internal state (level-0 chain with node heights) appears; in every state the structural invariants (all levels) and every query (rank, by-rank, range-by-rank for all pairs, range-by-score for all score pairs) are compared with a map+sort model. (b) all ZADD/ZINCRBY/ZREM/ZPOP histories up to the completed depth with all rank/score windows probed at every state, model-free cross-checks (ZRANK vs ZRANGE, ZREVRANGE vs ZRANGE, ZCOUNT/ZCARD vs ZRANGE) and the invariant hook on the live key.",
   note="Tower heights above 2 (3 in thorough) and more than 3 (4) members are outside the structure bound; command-level heights follow a fixed deterministic pattern."),
}

checks = []
for pid in ids:
    if pid in CHECKS:
        c = CHECKS[pid]
        checks.append({
            "property_id": pid,
            "quick_cmd": f"./vcheck {pid} --tier quick",
            "thorough_cmd": f"./vcheck {pid} --tier thorough",
            "evidence_file": f"/verif/evidence/{pid}.json",
            "replay_cmd_template": "./vcheck replay {path}",
            "engine": c["engine"],
            "level_claimed": {"category": c["cat"], "text": c["text"], "design_ref": f"DESIGN.md section 4, {pid}"},
            "level_note": c["note"],
            "technique": c["technique"],
        })
na = [{"property_id": p, "reason": "check not built yet in this snapshot (work in progress; it will be claimed once its check runs clean on the unchanged tree)"} for p in ids if p not in CHECKS]
m = {
 "version": 1,
 "setup_cmd": "./vcheck --build",
 "hooks": {
  "guard": "verif-hooks",
  "enable": "cargo feature `verif-hooks` of /repo, switched on by the harness crate's path dependency (ferrous = { path = \"/repo\", features = [\"verif-hooks\"] }); every check command rebuilds through ./vcheck",
  "baseline_off_cmd": "cd /repo && (cargo nextest run --workspace --no-fail-fast --test-threads 8 --offline || cargo test --workspace --no-fail-fast --offline)",
  "source_commits": hook_commits,
  "add_only": True,
 },
 "engines": [
  {"name": "E1", "path": "harness/src/explore/e1.rs", "serves_properties": [p for p in ids if p in CHECKS and "E1" in CHECKS[p]["engine"]], "kind_free_text": "explicit-state breadth-first search; the transition function is the real server (gated event loop, virtual clock); states identified by model state + the implementation's internal dump; two-phase deterministic parallel BFS over worker processes"},
  {"name": "E4", "path": "harness/src/props/c04.rs, c20.rs, c01.rs", "serves_properties": [p for p in ids if p in CHECKS and "E4" in CHECKS[p]["engine"]], "kind_free_text": "exhaustive enumeration on in-process components (skip list to closure, codec, glob matchers)"},
 ],
 "checks": checks,
 "notes": "All checks print KNOWN-FINDING lines for defects listed in /verif/known_findings.json and exit 0; exit 1 + VIOLATION only for unlisted deviations; exit 2 = machinery failure (never a verdict).",
 "not_applicable": na,
}
json.dump(m, open('/verif/MANIFEST.json', 'w'), indent=1)
print("claimed:", [c["property_id"] for c in checks])
