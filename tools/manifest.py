#!/usr/bin/env python3
"""Regenerate /verif/MANIFEST.json from the table below (claimed checks) and properties.jsonl."""
import json, subprocess
ids = [json.loads(l)['id'] for l in open('/verif/properties.jsonl')]
hook_commits = subprocess.run(['git', '-C', '/repo', 'log', '--format=%h %s'], capture_output=True, text=True).stdout.splitlines()
hook_commits = [l.split()[0] for l in hook_commits if ' verif-hooks:' in l]
hook_commits.reverse()

MC = "model_checking"
CHECKS = {
 "C01": dict(cat=MC, engine="E1", technique="explicit-state BFS over command histories of the real server (gated event loop, frozen virtual clock) against a reference model + exhaustive glob-matcher comparison",
   text="Every history of string/key-space commands up to the completed depth over a colliding alphabet (same-shard keys, every existing value type, boundary integers, binary key) is executed on the real server; each reply, the API-level dump and the internal dump are compared with the reference model at every distinct state; all GETRANGE index pairs relative to the length are probed at every state. The key glob matcher is compared with a port of Redis's stringmatchlen on all patterns up to length 4/5 over a 9-symbol alphabet.",
   note="Trusts the reference model in /verif/SEMANTICS.md (don't-cares are listed there), the checker's own RESP reader, and that histories deeper than the completed depth / values outside the alphabet behave alike."),
 "C03": dict(cat=MC, engine="E1", technique="explicit-state BFS over list/set/hash command histories of the real server against a reference model; random-outcome commands judged on throw-away replays",
   text="Per family (lists, two sets, hashes) and mixed across types on one key: all histories up to the completed depth; at every distinct state all index forms (relative to the length), all multi-key set-algebra selections of existing/missing/wrong-type keys and all SRANDMEMBER/SPOP count forms are probed and compared with the model; emptiness-deletes-the-key and failure atomicity are checked through the dump comparison.",
   note="Same trusted base as C01. SPOP with a random outcome is never an edge (kept deterministic); its reply and resulting dataset are judged at every state on a throw-away replay."),
 "C04": dict(cat=MC, engine="E1+E4", technique="explicit-state search to closure over the real SkipList's reachable internal states with forced tower heights + BFS over sorted-set command histories with model, cross-checks and structural invariant hook",
   text="(a) the real SkipList is driven through every insert (3-4 members x 7 colliding scores incl. -0/0, +-inf, 1 and 1+eps x forced heights 0..2) and remove until no new internal state (level-0 chain with node heights) appears; in every state the structural invariants (all levels) and every query (rank, by-rank, range-by-rank for all pairs, range-by-score for all score pairs) are compared with a map+sort model. (b) all ZADD/ZINCRBY/ZREM/ZPOP histories up to the completed depth with all rank/score windows probed at every state, model-free cross-checks (ZRANK vs ZRANGE, ZREVRANGE vs ZRANGE, ZCOUNT/ZCARD vs ZRANGE) and the invariant hook on the live key.",
   note="Tower heights above 2 (3 in thorough) and more than 3 (4) members are outside the structure bound; command-level heights follow a fixed deterministic pattern."),
 "C02": dict(cat=MC, engine="E1+E2", technique="explicit-state BFS over histories with virtual-clock actions (deadline-1ms, deadline+1ms, +999ms, one and two sweeper passes) on the real server with every probe on its own replay + exhaustive placement of client commands in the real sweeper thread's collect->delete window",
   text="Per value type: all histories up to the completed depth of TTL-setting, TTL-clearing, overwriting, in-place modifying, emptying/re-creating, renaming commands and clock actions; at every distinct state every read and every create-or-update command of that type, EXISTS/TYPE/TTL/PTTL/KEYS/SCAN/RANDOMKEY, NX/XX conditions are each evaluated on a fresh replay (a read may lazily delete) and compared with a model holding exact ns deadlines. Part B parks the real sweeper thread between its read-locked scan and its write-locked deletes and places every command of a menu (bound 1 quick / ordered pairs thorough) inside, before and after the window for 4 set-ups x 6 value types, with a bystander key in the same shard.",
   note="Time is virtual (clock_gettime/clock_nanosleep overridden in the checker binary); the exact deadline instant is a don't-care; DBSIZE is not used as an absence probe; a sweeper pass running inside a multi-lock command is not explored."),
 "C15": dict(cat=MC, engine="E1", technique="explicit-state BFS over stream command histories under virtual time (bursts within one ms, clock ticks, explicit ids around the clock and at u64::MAX) against an ordered-map model",
   text="All XADD(auto/explicit)/XDEL/XTRIM histories up to the completed depth; at every distinct state XRANGE/XREVRANGE over all ordered pairs of bounds drawn from {-, +, 0-0, every present id, id+-1 in seq and ms, last_id, above top}, COUNT 0/1/2, XREAD from every such id, $, two-stream forms, XLEN; internal agreement of last_id, the id-generator atomics and the length counter checked through a hook.",
   note="Field order inside an entry and null-vs-empty replies are don't-cares; forms outside the property (MINID, NOMKSTREAM, exclusive bounds, BLOCK) are not in the alphabet."),
 "C16": dict(cat=MC, engine="E1", technique="explicit-state BFS over consumer-group histories (2 groups, 2 consumers, XADD/XDEL in between, clock tick for idle thresholds) against a cursor+PEL model, plus internal consistency hook over the pending indexes and counters",
   text="All histories up to the completed depth over XGROUP CREATE/DESTROY/SETID/CREATECONSUMER/DELCONSUMER, XREADGROUP (>, COUNT, NOACK, explicit id), XACK (repeated, unknown, several ids), XCLAIM (min-idle 0/1000, FORCE, JUSTID); at every distinct state XPENDING summary and range forms (with and without consumer), XINFO GROUPS/CONSUMERS are compared with the model and ConsumerGroup::verif_check_consistency() is run on every live group.",
   note="Whether a read that delivers nothing creates the consumer, and '$' taken while the top entry is deleted, are don't-cares; claiming an entry that was XDEL'ed is kept out of the alphabet."),
 "C20": dict(cat=MC, engine="E4", technique="exhaustive enumeration on the real codec: all frame trees up to a node bound (round trip), all byte strings over the protocol alphabet up to a length bound with all chunkings, every prefix/single-byte substitution of an encoding corpus, differential against an independent RESP reader, hostile declared lengths and nesting under a counting allocator",
   text="Round trip parse(serialize(v)) = (v, len) for all frame trees with <= 3 (thorough 4) nodes over every RESP2/RESP3 type incl. null forms, binary and CRLF-bearing bulks, +-inf/NaN/-0/5e-324, with four kinds of trailing bytes. Chunking independence of RespParser: every string of length <= 4 (thorough 5) over a 24-symbol protocol alphabet and every prefix and single-byte substitution of ~100 encodings, each fed whole and in every chunking (all chunkings up to 12 bytes, otherwise <= 2/3 cuts plus all-single-bytes); observation = frames and errors in order plus what a sentinel frame fed afterwards yields. Totality/no reservation: declared lengths 2^31-1 .. 10^20 on $ * % ~ (also nested) and nesting depth 10 .. 10^6, each in a worker whose death is attributed to the announced case, largest single allocation <= 64 x input + 64 KiB.",
   note="When an error is detected (need-more vs error) is not prescribed; non-canonical declared lengths (-0, +1, 01) are don't-cares."),
}

checks = []
for pid in ids:
    if pid in CHECKS:
        c = CHECKS[pid]
        checks.append({
            "property_id": pid,
            "quick_cmd": f"./vcheck {pid} --tier quick",
            "thorough_cmd": f"./vcheck {pid} --tier thorough",
            "evidence_file": f"/verif/evidence/{pid}.json",
            "replay_cmd_template": "./vcheck replay {path}",
            "engine": c["engine"],
            "level_claimed": {"category": c["cat"], "text": c["text"], "design_ref": f"DESIGN.md section 4, {pid}"},
            "level_note": c["note"],
            "technique": c["technique"],
        })
na = [{"property_id": p, "reason": "check not built yet in this snapshot (work in progress; it will be claimed once its check runs clean on the unchanged tree)"} for p in ids if p not in CHECKS]
m = {
 "version": 1,
 "setup_cmd": "./vcheck --build",
 "hooks": {
  "guard": "verif-hooks",
  "enable": "cargo feature `verif-hooks` of /repo, switched on by the harness crate's path dependency (ferrous = { path = \"/repo\", features = [\"verif-hooks\"] }); every check command rebuilds through ./vcheck",
  "baseline_off_cmd": "cd /repo && (cargo nextest run --workspace --no-fail-fast --test-threads 8 --offline || cargo test --workspace --no-fail-fast --offline)",
  "source_commits": hook_commits,
  "add_only": True,
 },
 "engines": [
  {"name": "E1", "path": "harness/src/explore/e1.rs", "serves_properties": [p for p in ids if p in CHECKS and "E1" in CHECKS[p]["engine"]], "kind_free_text": "explicit-state breadth-first search; the transition function is the real server (gated event loop, virtual clock); states identified by model state + the implementation's internal dump; two-phase deterministic parallel BFS over worker processes"},
  {"name": "E4", "path": "harness/src/props/c04.rs, c20.rs, c01.rs", "serves_properties": [p for p in ids if p in CHECKS and "E4" in CHECKS[p]["engine"]], "kind_free_text": "exhaustive enumeration on in-process components (skip list to closure, codec, glob matchers)"},
 ],
 "checks": checks,
 "notes": "All checks print KNOWN-FINDING lines for defects listed in /verif/known_findings.json and exit 0; exit 1 + VIOLATION only for unlisted deviations; exit 2 = machinery failure (never a verdict).",
 "not_applicable": na,
}
json.dump(m, open('/verif/MANIFEST.json', 'w'), indent=1)
print("claimed:", [c["property_id"] for c in checks])
