#!/bin/bash
# thorough sweep into a scratch root (does not touch /verif/evidence)
export VERIF_ROOT=/root/sweep VERIF_RUN_DIR=/root/sweep/run
cd /verif
for p in "$@"; do
  s=$(date +%s)
  out=$(timeout 7200 /root/sweep/vcb $p --tier thorough 2>&1); code=$?
  e=$(date +%s)
  echo "$p exit=$code $((e-s))s viol=$(echo "$out" | grep -c '^VIOLATION') :: $(echo "$out" | tail -1 | cut -c1-160)" >> /root/sweep/summary.txt
  echo "$out" > /root/sweep/$p.log
done
echo DONE >> /root/sweep/summary.txt
