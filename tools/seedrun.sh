#!/bin/bash
# seedrun.sh <seed id> <PROP> [tier]: apply /verif/seeded/<id>/patch.diff to /repo, run the check, restore /repo.
id="$1"; prop="$2"; tier="${3:-quick}"
cd /verif || exit 2
if ! git -C /repo diff --quiet HEAD; then echo "repo working tree not clean"; exit 2; fi
git -C /repo apply /verif/seeded/$id/patch.diff || git -C /repo apply -3 /verif/seeded/$id/patch.diff || { echo "patch does not apply"; git -C /repo reset -q --hard HEAD; exit 2; }
out=$(timeout 1500 ./vcheck "$prop" --tier "$tier" 2>&1); code=$?; pkill -9 -f "vcheck-bin --worker" 2>/dev/null
git -C /repo reset -q --hard HEAD
nviol=$(echo "$out" | grep -c "^VIOLATION")
if [ $code -eq 1 ] && [ $nviol -gt 0 ]; then echo "DETECTED seeded/$id by $prop $tier ($nviol signature(s)): $(echo "$out" | grep 'signature:' | head -3 | tr '\n' ' ')";
elif [ $code -eq 2 ]; then echo "MACHINERY($code) seeded/$id by $prop: $(echo "$out" | grep -E 'MACHINERY|error' | head -3)";
else echo "MISSED seeded/$id by $prop $tier (exit $code)"; fi
